package gen

import (
	"fmt"
	"math"
	"strconv"
	"strings"

	"google.golang.org/protobuf/proto"
	"google.golang.org/protobuf/reflect/protodesc"
	"google.golang.org/protobuf/reflect/protoreflect"
	"google.golang.org/protobuf/reflect/protoregistry"
	"google.golang.org/protobuf/types/descriptorpb"
	"google.golang.org/protobuf/verif/core"
)

// SchemaOpts steers GenSchema.
type SchemaOpts struct {
	Prefix   string // unique prefix for file paths and packages
	NumFiles int    // default 1..3
	// Syntax: 0 = random per file, otherwise 2 (proto2), 3 (proto3), 2023, 2024
	Syntax int
	// Features: set editions feature overrides at file / message / field / enum level.
	Features bool
	// LaxTargets also places field-level features on messages (inherited by
	// the implementation although protoc restricts the targets).
	LaxTargets bool
	// JSONCollisions makes some sibling fields share a JSON name.
	JSONCollisions bool
	// NoServices, NoExtensions, NoGroups: restrict constructs.
	NoServices, NoExtensions, NoGroups bool
	// Codegen keeps names and constructs inside what protoc-gen-go supports
	// and gives every file a go_package.
	Codegen bool
	// HostileNames draws identifiers from a pool that collides with Go
	// keywords and generated method names.
	HostileNames bool
	MaxFields    int // per message (default 8)
	// ManyRequired adds one message with this many required fields (proto2).
	ManyRequired int
}

// Schema is a set of files in dependency order, in protoc-canonical form.
type Schema struct {
	Files []*descriptorpb.FileDescriptorProto
}

type sgEnum struct {
	full      string
	closed    bool
	firstZero bool
	values    []string
	file      int
}

type sgMsg struct {
	full     string
	file     int
	extRange [][2]int32
	mapEntry bool
	syntax   int
}

type sgen struct {
	r     *core.Rand
	o     SchemaOpts
	enums []*sgEnum
	msgs  []*sgMsg
	n     int
	// usedExt: (extendee, number) pairs taken anywhere in the schema
	usedExt map[string]bool
	// msgUsed: exact hostile names already used inside a message
	msgUsed map[string]map[string]bool
}

var sgHostile = []string{"type", "func", "range", "map", "string", "int", "nil", "error", "len", "go", "var", "select", "chan", "interface", "struct", "reset", "descriptor", "proto_message", "proto_reflect", "get", "set", "has", "clear", "build", "which", "x_y", "_x", "x_", "new", "make", "append", "bool", "byte", "true", "iota", "init", "main", "package", "import", "default", "return", "state", "size_cache", "unknown_fields", "extension_fields"}

type sgFeat struct {
	presence  descriptorpb.FeatureSet_FieldPresence
	openEnum  bool
	packed    bool
	utf8      bool
	delimited bool
}

func (g *sgen) id(base string) string {
	g.n++
	if g.o.HostileNames && g.r.Chance(1, 3) {
		pool := []string{"type", "func", "String", "Reset", "ProtoReflect", "Descriptor", "get", "Get", "set", "has", "clear", "which", "build", "Builder", "XXX", "x_y", "_x", "x_", "a1", "go", "map", "range", "string", "int", "nil", "true", "len", "error", "Marshal", "ProtoMessage", "state", "sizeCache", "unknownFields"}
		return fmt.Sprintf("%s%d", pool[g.r.Intn(len(pool))], g.n)
	}
	return fmt.Sprintf("%s%d", base, g.n)
}

var sgScalarTypes = []descriptorpb.FieldDescriptorProto_Type{
	descriptorpb.FieldDescriptorProto_TYPE_DOUBLE, descriptorpb.FieldDescriptorProto_TYPE_FLOAT, descriptorpb.FieldDescriptorProto_TYPE_INT64, descriptorpb.FieldDescriptorProto_TYPE_UINT64,
	descriptorpb.FieldDescriptorProto_TYPE_INT32, descriptorpb.FieldDescriptorProto_TYPE_FIXED64, descriptorpb.FieldDescriptorProto_TYPE_FIXED32, descriptorpb.FieldDescriptorProto_TYPE_BOOL,
	descriptorpb.FieldDescriptorProto_TYPE_STRING, descriptorpb.FieldDescriptorProto_TYPE_BYTES, descriptorpb.FieldDescriptorProto_TYPE_UINT32, descriptorpb.FieldDescriptorProto_TYPE_SFIXED32,
	descriptorpb.FieldDescriptorProto_TYPE_SFIXED64, descriptorpb.FieldDescriptorProto_TYPE_SINT32, descriptorpb.FieldDescriptorProto_TYPE_SINT64,
}

var sgKeyTypes = []descriptorpb.FieldDescriptorProto_Type{
	descriptorpb.FieldDescriptorProto_TYPE_INT64, descriptorpb.FieldDescriptorProto_TYPE_UINT64, descriptorpb.FieldDescriptorProto_TYPE_INT32, descriptorpb.FieldDescriptorProto_TYPE_FIXED64,
	descriptorpb.FieldDescriptorProto_TYPE_FIXED32, descriptorpb.FieldDescriptorProto_TYPE_BOOL, descriptorpb.FieldDescriptorProto_TYPE_STRING, descriptorpb.FieldDescriptorProto_TYPE_UINT32,
	descriptorpb.FieldDescriptorProto_TYPE_SFIXED32, descriptorpb.FieldDescriptorProto_TYPE_SFIXED64, descriptorpb.FieldDescriptorProto_TYPE_SINT32, descriptorpb.FieldDescriptorProto_TYPE_SINT64,
}

// JSONCamel is the protoc json_name derivation.
func JSONCamel(s string) string {
	var b []byte
	up := false
	for i := 0; i < len(s); i++ {
		c := s[i]
		if c == '_' {
			up = true
			continue
		}
		if up && c >= 'a' && c <= 'z' {
			c -= 'a' - 'A'
		}
		up = false
		b = append(b, c)
	}
	return string(b)
}

func mapEntryName(s string) string {
	var b []byte
	up := true
	for i := 0; i < len(s); i++ {
		c := s[i]
		if c == '_' {
			up = true
			continue
		}
		if up && c >= 'a' && c <= 'z' {
			c -= 'a' - 'A'
		}
		up = false
		b = append(b, c)
	}
	return string(b) + "Entry"
}

// GenSchema generates a valid schema.
func GenSchema(r *core.Rand, o SchemaOpts) *Schema {
	if o.NumFiles == 0 {
		o.NumFiles = 1 + r.Intn(3)
	}
	if o.MaxFields == 0 {
		o.MaxFields = 8
	}
	g := &sgen{r: r, o: o}
	s := &Schema{}
	for fi := 0; fi < o.NumFiles; fi++ {
		s.Files = append(s.Files, g.file(fi, s))
	}
	return s
}

func (g *sgen) file(fi int, s *Schema) *descriptorpb.FileDescriptorProto {
	r := g.r
	syn := g.o.Syntax
	if syn == 0 {
		syn = []int{2, 3, 2023, 2023, 2024}[r.Intn(5)]
	}
	pkg := g.o.Prefix
	switch r.Intn(4) {
	case 1:
		pkg += ".a"
	case 2:
		pkg += ".a.b"
	case 3:
		pkg += fmt.Sprintf(".p%d", fi)
	}
	if g.o.Codegen {
		pkg = fmt.Sprintf("%s.f%d", g.o.Prefix, fi)
	}
	fd := &descriptorpb.FileDescriptorProto{Name: proto.String(fmt.Sprintf("%s/file%d.proto", strings.ReplaceAll(g.o.Prefix, ".", "/"), fi)), Package: proto.String(pkg)}
	feat := sgFeat{presence: descriptorpb.FeatureSet_EXPLICIT, openEnum: false, packed: false, utf8: false}
	switch syn {
	case 2:
		// syntax omitted for proto2 (canonical)
		if r.Chance(1, 4) {
			fd.Syntax = proto.String("proto2")
		}
	case 3:
		fd.Syntax = proto.String("proto3")
		feat = sgFeat{presence: descriptorpb.FeatureSet_IMPLICIT, openEnum: true, packed: true, utf8: true}
	default:
		fd.Syntax = proto.String("editions")
		if syn == 2024 {
			fd.Edition = descriptorpb.Edition_EDITION_2024.Enum()
		} else {
			fd.Edition = descriptorpb.Edition_EDITION_2023.Enum()
		}
		feat = sgFeat{presence: descriptorpb.FeatureSet_EXPLICIT, openEnum: true, packed: true, utf8: true}
		if g.o.Features && r.Chance(2, 3) {
			fs := &descriptorpb.FeatureSet{}
			if r.Chance(1, 3) {
				feat.presence = []descriptorpb.FeatureSet_FieldPresence{descriptorpb.FeatureSet_EXPLICIT, descriptorpb.FeatureSet_IMPLICIT}[r.Intn(2)]
				fs.FieldPresence = feat.presence.Enum()
			}
			if r.Chance(1, 3) {
				feat.openEnum = r.Bool()
				fs.EnumType = map[bool]descriptorpb.FeatureSet_EnumType{true: descriptorpb.FeatureSet_OPEN, false: descriptorpb.FeatureSet_CLOSED}[feat.openEnum].Enum()
			}
			if r.Chance(1, 3) {
				feat.packed = r.Bool()
				fs.RepeatedFieldEncoding = map[bool]descriptorpb.FeatureSet_RepeatedFieldEncoding{true: descriptorpb.FeatureSet_PACKED, false: descriptorpb.FeatureSet_EXPANDED}[feat.packed].Enum()
			}
			if r.Chance(1, 3) {
				feat.utf8 = r.Bool()
				fs.Utf8Validation = map[bool]descriptorpb.FeatureSet_Utf8Validation{true: descriptorpb.FeatureSet_VERIFY, false: descriptorpb.FeatureSet_NONE}[feat.utf8].Enum()
			}
			if r.Chance(1, 4) && !g.o.NoGroups {
				feat.delimited = r.Bool()
				fs.MessageEncoding = map[bool]descriptorpb.FeatureSet_MessageEncoding{true: descriptorpb.FeatureSet_DELIMITED, false: descriptorpb.FeatureSet_LENGTH_PREFIXED}[feat.delimited].Enum()
			}
			if r.Chance(1, 4) {
				fs.JsonFormat = []descriptorpb.FeatureSet_JsonFormat{descriptorpb.FeatureSet_ALLOW, descriptorpb.FeatureSet_LEGACY_BEST_EFFORT}[r.Intn(2)].Enum()
			}
			fd.Options = &descriptorpb.FileOptions{Features: fs}
		}
	}
	if g.o.Codegen {
		if fd.Options == nil {
			fd.Options = &descriptorpb.FileOptions{}
		}
		fd.Options.GoPackage = proto.String(fmt.Sprintf("verifgen/%s/f%d", strings.ReplaceAll(g.o.Prefix, ".", "_"), fi))
	} else if r.Chance(1, 4) {
		if fd.Options == nil {
			fd.Options = &descriptorpb.FileOptions{}
		}
		fd.Options.JavaPackage = proto.String("com.example." + g.id("j"))
		if r.Bool() {
			fd.Options.Deprecated = proto.Bool(true)
		}
	}
	// imports
	visible := map[int]bool{fi: true}
	for j := 0; j < fi; j++ {
		if r.Chance(2, 3) {
			fd.Dependency = append(fd.Dependency, s.Files[j].GetName())
			visible[j] = true
			if r.Chance(1, 4) {
				fd.PublicDependency = append(fd.PublicDependency, int32(len(fd.Dependency)-1))
			}
		}
	}
	// enums first (so that messages can use them)
	ne := r.Intn(3)
	for i := 0; i < ne; i++ {
		fd.EnumType = append(fd.EnumType, g.enum(pkg, fi, syn, feat))
	}
	nm := 1 + r.Intn(4)
	for i := 0; i < nm; i++ {
		fd.MessageType = append(fd.MessageType, g.message(pkg, fi, syn, feat, visible, 0))
	}
	if g.o.ManyRequired > 0 && syn == 2 {
		m := &descriptorpb.DescriptorProto{Name: proto.String(g.id("ManyReq"))}
		for i := 0; i < g.o.ManyRequired; i++ {
			f := &descriptorpb.FieldDescriptorProto{Name: proto.String(fmt.Sprintf("r%d", i)), Number: proto.Int32(int32(i + 1)), Label: descriptorpb.FieldDescriptorProto_LABEL_REQUIRED.Enum(), Type: descriptorpb.FieldDescriptorProto_TYPE_INT32.Enum()}
			f.JsonName = proto.String(JSONCamel(f.GetName()))
			m.Field = append(m.Field, f)
		}
		fd.MessageType = append(fd.MessageType, m)
		g.msgs = append(g.msgs, &sgMsg{full: pkg + "." + m.GetName(), file: fi, syntax: syn})
	}
	// extensions
	if syn != 3 && !g.o.NoExtensions {
		fd.Extension = g.extensions(pkg, fi, syn, feat, visible, r.Intn(3))
	}
	// custom options: extensions of the descriptor option messages (the only
	// extensions a proto3 file may declare)
	if !g.o.NoExtensions && !g.o.Codegen && r.Chance(1, 3) {
		has := false
		for _, d := range fd.Dependency {
			has = has || d == "google/protobuf/descriptor.proto"
		}
		if !has {
			fd.Dependency = append(fd.Dependency, "google/protobuf/descriptor.proto")
		}
		targets := []string{"FileOptions", "MessageOptions", "FieldOptions", "EnumOptions", "EnumValueOptions", "OneofOptions", "ServiceOptions", "MethodOptions", "ExtensionRangeOptions"}
		for i := 0; i < 1+r.Intn(3); i++ {
			g.n++
			x := &descriptorpb.FieldDescriptorProto{Name: proto.String(g.id("opt")), Number: proto.Int32(int32(50000 + g.n + r.Intn(1000)*1000)), Label: descriptorpb.FieldDescriptorProto_LABEL_OPTIONAL.Enum(),
				Extendee: proto.String(".google.protobuf." + targets[r.Intn(len(targets))]), Type: sgScalarTypes[r.Intn(len(sgScalarTypes))].Enum()}
			key := fmt.Sprintf("%s/%d", x.GetExtendee(), x.GetNumber())
			if g.usedExt == nil {
				g.usedExt = map[string]bool{}
			}
			if g.usedExt[key] {
				continue
			}
			g.usedExt[key] = true
			if r.Chance(1, 2) {
				x.Label = descriptorpb.FieldDescriptorProto_LABEL_REPEATED.Enum()
				t := x.GetType()
				if syn <= 3 && t != descriptorpb.FieldDescriptorProto_TYPE_STRING && t != descriptorpb.FieldDescriptorProto_TYPE_BYTES && r.Chance(2, 3) {
					x.Options = &descriptorpb.FieldOptions{Packed: proto.Bool(r.Bool())}
				}
				if syn >= 2023 && g.o.Features && t != descriptorpb.FieldDescriptorProto_TYPE_STRING && t != descriptorpb.FieldDescriptorProto_TYPE_BYTES && r.Chance(1, 2) {
					x.Options = &descriptorpb.FieldOptions{Features: &descriptorpb.FeatureSet{RepeatedFieldEncoding: []descriptorpb.FeatureSet_RepeatedFieldEncoding{descriptorpb.FeatureSet_PACKED, descriptorpb.FeatureSet_EXPANDED}[r.Intn(2)].Enum()}}
				}
			}
			fd.Extension = append(fd.Extension, x)
		}
	}
	if !g.o.NoServices && r.Chance(1, 3) {
		sv := &descriptorpb.ServiceDescriptorProto{Name: proto.String(g.id("Svc"))}
		var cands []*sgMsg
		for _, m := range g.msgs {
			if visible[m.file] && !m.mapEntry {
				cands = append(cands, m)
			}
		}
		for i := 0; i < 1+r.Intn(3) && len(cands) > 0; i++ {
			md := &descriptorpb.MethodDescriptorProto{Name: proto.String(g.id("Call")), InputType: proto.String("." + cands[r.Intn(len(cands))].full), OutputType: proto.String("." + cands[r.Intn(len(cands))].full)}
			if r.Chance(1, 3) {
				md.ClientStreaming = proto.Bool(true)
			}
			if r.Chance(1, 3) {
				md.ServerStreaming = proto.Bool(true)
			}
			if r.Chance(1, 4) {
				md.Options = &descriptorpb.MethodOptions{Deprecated: proto.Bool(true)}
			}
			sv.Method = append(sv.Method, md)
		}
		fd.Service = append(fd.Service, sv)
	}
	return fd
}

func (g *sgen) enum(scope string, fi, syn int, feat sgFeat) *descriptorpb.EnumDescriptorProto {
	r := g.r
	name := g.id("E")
	ed := &descriptorpb.EnumDescriptorProto{Name: proto.String(name)}
	closed := !feat.openEnum
	if syn >= 2023 && g.o.Features && r.Chance(1, 3) {
		closed = r.Bool()
		et := descriptorpb.FeatureSet_OPEN
		if closed {
			et = descriptorpb.FeatureSet_CLOSED
		}
		ed.Options = &descriptorpb.EnumOptions{Features: &descriptorpb.FeatureSet{EnumType: et.Enum()}}
	}
	nv := 1 + r.Intn(4)
	info := &sgEnum{full: scope + "." + name, closed: closed, file: fi}
	num := int32(0)
	if closed && r.Chance(1, 3) {
		num = int32(r.Intn(5)) - 2
	}
	info.firstZero = num == 0
	upper := strings.ToUpper(name)
	for i := 0; i < nv; i++ {
		vn := fmt.Sprintf("%s_V%d", upper, i)
		ed.Value = append(ed.Value, &descriptorpb.EnumValueDescriptorProto{Name: proto.String(vn), Number: proto.Int32(num)})
		info.values = append(info.values, vn)
		num += int32(1 + r.Intn(3))
		if r.Chance(1, 10) {
			num += 1000
		}
	}
	if nv >= 2 && r.Chance(1, 4) { // alias
		vn := fmt.Sprintf("%s_ALIAS", upper)
		ed.Value = append(ed.Value, &descriptorpb.EnumValueDescriptorProto{Name: proto.String(vn), Number: proto.Int32(ed.Value[r.Intn(nv)].GetNumber())})
		info.values = append(info.values, vn)
		if ed.Options == nil {
			ed.Options = &descriptorpb.EnumOptions{}
		}
		ed.Options.AllowAlias = proto.Bool(true)
	}
	if r.Chance(1, 4) {
		// one to five disjoint reserved ranges (inclusive ends; single numbers,
		// negative ranges), declared in any order
		lo := num + 10
		for k, n := 0, 1+r.Intn(5); k < n; k++ {
			hi := lo + int32(r.Intn(3))
			ed.ReservedRange = append(ed.ReservedRange, &descriptorpb.EnumDescriptorProto_EnumReservedRange{Start: proto.Int32(lo), End: proto.Int32(hi)})
			lo = hi + 1 + int32(r.Intn(4))
		}
		if r.Bool() {
			ed.ReservedRange = append(ed.ReservedRange, &descriptorpb.EnumDescriptorProto_EnumReservedRange{Start: proto.Int32(-100), End: proto.Int32(-90)})
			if r.Bool() {
				ed.ReservedRange = append(ed.ReservedRange, &descriptorpb.EnumDescriptorProto_EnumReservedRange{Start: proto.Int32(-2000), End: proto.Int32(-2000)})
			}
		}
		for i := len(ed.ReservedRange) - 1; i > 0; i-- {
			j := r.Intn(i + 1)
			ed.ReservedRange[i], ed.ReservedRange[j] = ed.ReservedRange[j], ed.ReservedRange[i]
		}
		ed.ReservedName = append(ed.ReservedName, upper+"_RESERVED")
	}
	g.enums = append(g.enums, info)
	return ed
}

func sgDefault(r *core.Rand, t descriptorpb.FieldDescriptorProto_Type) string {
	switch t {
	case descriptorpb.FieldDescriptorProto_TYPE_DOUBLE:
		f := RandFloat64(r, MsgOpts{})
		switch {
		case math.IsNaN(f):
			return "nan"
		case math.IsInf(f, 1):
			return "inf"
		case math.IsInf(f, -1):
			return "-inf"
		}
		return strconv.FormatFloat(f, 'g', -1, 64)
	case descriptorpb.FieldDescriptorProto_TYPE_FLOAT:
		f := float64(RandFloat32(r, MsgOpts{}))
		switch {
		case math.IsNaN(f):
			return "nan"
		case math.IsInf(f, 1):
			return "inf"
		case math.IsInf(f, -1):
			return "-inf"
		}
		return strconv.FormatFloat(f, 'g', -1, 32)
	case descriptorpb.FieldDescriptorProto_TYPE_INT64, descriptorpb.FieldDescriptorProto_TYPE_SFIXED64, descriptorpb.FieldDescriptorProto_TYPE_SINT64:
		return strconv.FormatInt(int64(r.Uint64Boundary()), 10)
	case descriptorpb.FieldDescriptorProto_TYPE_UINT64, descriptorpb.FieldDescriptorProto_TYPE_FIXED64:
		return strconv.FormatUint(r.Uint64Boundary(), 10)
	case descriptorpb.FieldDescriptorProto_TYPE_INT32, descriptorpb.FieldDescriptorProto_TYPE_SFIXED32, descriptorpb.FieldDescriptorProto_TYPE_SINT32:
		return strconv.FormatInt(int64(int32(r.Uint64Boundary())), 10)
	case descriptorpb.FieldDescriptorProto_TYPE_UINT32, descriptorpb.FieldDescriptorProto_TYPE_FIXED32:
		return strconv.FormatUint(uint64(uint32(r.Uint64Boundary())), 10)
	case descriptorpb.FieldDescriptorProto_TYPE_BOOL:
		return []string{"true", "false"}[r.Intn(2)]
	case descriptorpb.FieldDescriptorProto_TYPE_STRING:
		return RandString(r, true)
	case descriptorpb.FieldDescriptorProto_TYPE_BYTES:
		// C-escaped, as protoc writes it
		raw := RandBytes(r)
		var sb strings.Builder
		for _, c := range raw {
			switch {
			case c == '\n':
				sb.WriteString(`\n`)
			case c == '\r':
				sb.WriteString(`\r`)
			case c == '\t':
				sb.WriteString(`\t`)
			case c == '"':
				sb.WriteString(`\"`)
			case c == '\'':
				sb.WriteString(`\'`)
			case c == '\\':
				sb.WriteString(`\\`)
			case c >= 0x20 && c <= 0x7e:
				sb.WriteByte(c)
			default:
				fmt.Fprintf(&sb, `\%03o`, c)
			}
		}
		return sb.String()
	}
	return ""
}

func (g *sgen) message(scope string, fi, syn int, feat sgFeat, visible map[int]bool, depth int) *descriptorpb.DescriptorProto {
	r := g.r
	name := g.id("M")
	if g.o.HostileNames || !g.o.Codegen {
		// keep an upper-case first letter (protoc-gen-go camel-cases anyway)
		name = strings.ToUpper(name[:1]) + name[1:]
	}
	full := scope + "." + name
	md := &descriptorpb.DescriptorProto{Name: proto.String(name)}
	info := &sgMsg{full: full, file: fi, syntax: syn}
	g.msgs = append(g.msgs, info) // registered first: fields may refer to the message itself
	mfeat := feat
	if syn >= 2023 && g.o.Features && r.Chance(1, 4) {
		fs := &descriptorpb.FeatureSet{JsonFormat: []descriptorpb.FeatureSet_JsonFormat{descriptorpb.FeatureSet_ALLOW, descriptorpb.FeatureSet_LEGACY_BEST_EFFORT}[r.Intn(2)].Enum()}
		if g.o.LaxTargets {
			if r.Bool() {
				mfeat.presence = []descriptorpb.FeatureSet_FieldPresence{descriptorpb.FeatureSet_EXPLICIT, descriptorpb.FeatureSet_IMPLICIT}[r.Intn(2)]
				fs.FieldPresence = mfeat.presence.Enum()
			}
			if r.Bool() {
				mfeat.packed = r.Bool()
				fs.RepeatedFieldEncoding = map[bool]descriptorpb.FeatureSet_RepeatedFieldEncoding{true: descriptorpb.FeatureSet_PACKED, false: descriptorpb.FeatureSet_EXPANDED}[mfeat.packed].Enum()
			}
			if r.Bool() {
				mfeat.utf8 = r.Bool()
				fs.Utf8Validation = map[bool]descriptorpb.FeatureSet_Utf8Validation{true: descriptorpb.FeatureSet_VERIFY, false: descriptorpb.FeatureSet_NONE}[mfeat.utf8].Enum()
			}
			if r.Bool() {
				mfeat.openEnum = r.Bool()
				fs.EnumType = map[bool]descriptorpb.FeatureSet_EnumType{true: descriptorpb.FeatureSet_OPEN, false: descriptorpb.FeatureSet_CLOSED}[mfeat.openEnum].Enum()
			}
		}
		md.Options = &descriptorpb.MessageOptions{Features: fs}
	}
	// nested declarations first
	if depth < 2 {
		for i := 0; i < r.Intn(2); i++ {
			md.EnumType = append(md.EnumType, g.enum(full, fi, syn, mfeat))
		}
		for i := 0; i < r.Intn(2)+boolInt(depth == 0 && r.Chance(1, 3)); i++ {
			md.NestedType = append(md.NestedType, g.message(full, fi, syn, mfeat, visible, depth+1))
		}
	}
	// number allocation
	next := int32(1)
	if r.Chance(1, 4) {
		next = int32(1 + r.Intn(100))
	}
	alloc := func() int32 {
		n := next
		next += int32(1 + r.Intn(3)*r.Intn(2))
		if r.Chance(1, 12) {
			next += int32(r.Intn(20000))
		}
		if next >= 19000 && next <= 19999 {
			next = 20000
		}
		if n >= 19000 && n <= 19999 {
			n = 20000 + n - 19000
			next = n + 1
		}
		return n
	}
	nf := r.Intn(g.o.MaxFields + 1)
	usedJSON := map[string]bool{}
	addField := func(f *descriptorpb.FieldDescriptorProto) {
		if f.JsonName == nil {
			jn := JSONCamel(f.GetName())
			if r.Chance(1, 8) && !g.o.Codegen {
				jn = "custom" + g.id("J")
			}
			f.JsonName = proto.String(jn)
		}
		usedJSON[f.GetJsonName()] = true
		md.Field = append(md.Field, f)
	}
	// real oneofs are declared first; their fields must be consecutive
	noneof := 0
	if r.Chance(1, 3) {
		noneof = 1 + r.Intn(2)
	}
	for oi := 0; oi < noneof; oi++ {
		od := &descriptorpb.OneofDescriptorProto{Name: proto.String(g.id("oneof"))}
		if syn >= 2023 && g.o.Features && r.Chance(1, 5) {
			od.Options = &descriptorpb.OneofOptions{Features: &descriptorpb.FeatureSet{JsonFormat: descriptorpb.FeatureSet_ALLOW.Enum()}}
		}
		md.OneofDecl = append(md.OneofDecl, od)
	}
	var synthetic []*descriptorpb.FieldDescriptorProto
	for i := 0; i < nf; i++ {
		f := g.field(full, fi, syn, mfeat, visible, md, alloc, false)
		if f == nil {
			continue
		}
		addField(f)
		if f.GetProto3Optional() {
			synthetic = append(synthetic, f)
		}
	}
	for oi := 0; oi < noneof; oi++ {
		k := 1 + r.Intn(3)
		for j := 0; j < k; j++ {
			f := g.field(full, fi, syn, mfeat, visible, md, alloc, true)
			if f == nil {
				f = &descriptorpb.FieldDescriptorProto{Name: proto.String(g.id("of")), Number: proto.Int32(alloc()), Label: descriptorpb.FieldDescriptorProto_LABEL_OPTIONAL.Enum(), Type: descriptorpb.FieldDescriptorProto_TYPE_INT32.Enum()}
			}
			f.OneofIndex = proto.Int32(int32(oi))
			addField(f)
		}
	}
	// a few more plain fields after the oneofs
	for i := 0; i < r.Intn(3); i++ {
		if f := g.field(full, fi, syn, mfeat, visible, md, alloc, false); f != nil {
			addField(f)
			if f.GetProto3Optional() {
				synthetic = append(synthetic, f)
			}
		}
	}
	for _, f := range synthetic {
		md.OneofDecl = append(md.OneofDecl, &descriptorpb.OneofDescriptorProto{Name: proto.String("_" + f.GetName())})
		f.OneofIndex = proto.Int32(int32(len(md.OneofDecl) - 1))
	}
	if g.o.JSONCollisions && len(md.Field) >= 2 && r.Chance(1, 2) {
		// two siblings with the same JSON name (protodesc accepts this)
		a, b := md.Field[0], md.Field[len(md.Field)-1]
		b.JsonName = proto.String(a.GetJsonName())
	}
	// extension ranges and reserved ranges beyond the used numbers
	if syn != 3 && !g.o.NoExtensions && r.Chance(1, 2) {
		k := 1 + r.Intn(4)
		for i := 0; i < k; i++ {
			start := next + int32(r.Intn(10))
			end := start + int32(1+r.Intn(100))
			if start >= 19000-200 && start <= 19999 {
				start, end = 20000, 20100
			}
			if r.Chance(1, 8) {
				end = 536870912
			}
			xr := &descriptorpb.DescriptorProto_ExtensionRange{Start: proto.Int32(start), End: proto.Int32(end)}
			if r.Chance(1, 6) {
				xr.Options = &descriptorpb.ExtensionRangeOptions{Verification: descriptorpb.ExtensionRangeOptions_UNVERIFIED.Enum()}
			}
			md.ExtensionRange = append(md.ExtensionRange, xr)
			info.extRange = append(info.extRange, [2]int32{start, end})
			next = end + 1
			if end == 536870912 {
				break
			}
		}
	}
	if len(md.ExtensionRange) > 1 && r.Bool() {
		for i := len(md.ExtensionRange) - 1; i > 0; i-- {
			j := r.Intn(i + 1)
			md.ExtensionRange[i], md.ExtensionRange[j] = md.ExtensionRange[j], md.ExtensionRange[i]
		}
	}
	if r.Chance(1, 4) && next < 500000000 {
		// one to five disjoint reserved ranges (exclusive ends), declared in any order
		start := next + int32(r.Intn(5))
		for k, n := 0, 1+r.Intn(5); k < n && start < 500000000; k++ {
			end := start + int32(1+r.Intn(9))
			if start <= 19999 && end > 19000 {
				start, end = 20000, 20000+int32(1+r.Intn(9))
			}
			md.ReservedRange = append(md.ReservedRange, &descriptorpb.DescriptorProto_ReservedRange{Start: proto.Int32(start), End: proto.Int32(end)})
			start = end + int32(r.Intn(4))
		}
		for i := len(md.ReservedRange) - 1; i > 0; i-- {
			j := r.Intn(i + 1)
			md.ReservedRange[i], md.ReservedRange[j] = md.ReservedRange[j], md.ReservedRange[i]
		}
		md.ReservedName = append(md.ReservedName, g.id("reserved_name"))
		if r.Bool() {
			md.ReservedName = append(md.ReservedName, g.id("other_reserved"))
		}
	}
	if syn != 3 && !g.o.NoExtensions && depth == 0 && r.Chance(1, 4) {
		md.Extension = g.extensions(full, fi, syn, mfeat, visible, 1+r.Intn(2))
	}
	if r.Chance(1, 8) {
		if md.Options == nil {
			md.Options = &descriptorpb.MessageOptions{}
		}
		md.Options.Deprecated = proto.Bool(true)
	}
	return md
}

func boolInt(b bool) int {
	if b {
		return 1
	}
	return 0
}

// field makes one field of message `full` (nil if the draw is not possible).
func (g *sgen) field(full string, fi, syn int, feat sgFeat, visible map[int]bool, md *descriptorpb.DescriptorProto, alloc func() int32, inOneof bool) *descriptorpb.FieldDescriptorProto {
	r := g.r
	name := g.id("f")
	if r.Chance(1, 3) {
		name = g.id([]string{"foo_bar", "a_b_c", "x", "long_field_name_with_parts", "f_1x", "camelCase"}[r.Intn(6)])
	}
	if g.o.HostileNames && r.Chance(1, 3) {
		// an exact hostile name (Go keyword, predeclared identifier, generated method stem), once per message
		if g.msgUsed == nil {
			g.msgUsed = map[string]map[string]bool{}
		}
		if g.msgUsed[full] == nil {
			g.msgUsed[full] = map[string]bool{}
		}
		h := sgHostile[r.Intn(len(sgHostile))]
		if !g.msgUsed[full][h] {
			g.msgUsed[full][h] = true
			name = h
		}
	}
	f := &descriptorpb.FieldDescriptorProto{Name: proto.String(name), Number: proto.Int32(alloc()), Label: descriptorpb.FieldDescriptorProto_LABEL_OPTIONAL.Enum()}
	card := r.Intn(10) // 0-5 optional, 6-8 repeated, 9 required (proto2)
	if inOneof {
		card = 0
	}
	kindDraw := r.Intn(10)
	if card <= 5 && !inOneof && kindDraw == 9 && r.Chance(1, 2) { // map field
		if md == nil {
			return nil
		}
		en := mapEntryName(name)
		kt := sgKeyTypes[r.Intn(len(sgKeyTypes))]
		entry := &descriptorpb.DescriptorProto{Name: proto.String(en), Options: &descriptorpb.MessageOptions{MapEntry: proto.Bool(true)}}
		kf := &descriptorpb.FieldDescriptorProto{Name: proto.String("key"), Number: proto.Int32(1), Label: descriptorpb.FieldDescriptorProto_LABEL_OPTIONAL.Enum(), Type: kt.Enum(), JsonName: proto.String("key")}
		vf := &descriptorpb.FieldDescriptorProto{Name: proto.String("value"), Number: proto.Int32(2), Label: descriptorpb.FieldDescriptorProto_LABEL_OPTIONAL.Enum(), JsonName: proto.String("value")}
		g.valueType(vf, fi, syn, feat, visible, true, feat.presence == descriptorpb.FeatureSet_IMPLICIT)
		entry.Field = []*descriptorpb.FieldDescriptorProto{kf, vf}
		md.NestedType = append(md.NestedType, entry)
		g.msgs = append(g.msgs, &sgMsg{full: full + "." + en, file: fi, mapEntry: true, syntax: syn})
		f.Label = descriptorpb.FieldDescriptorProto_LABEL_REPEATED.Enum()
		f.Type = descriptorpb.FieldDescriptorProto_TYPE_MESSAGE.Enum()
		f.TypeName = proto.String("." + full + "." + en)
		return f
	}
	if !g.o.NoGroups && syn == 2 && kindDraw == 8 && r.Chance(1, 2) && md != nil && !inOneof { // proto2 group
		gn := "G" + g.id("roup")
		gm := &descriptorpb.DescriptorProto{Name: proto.String(gn)}
		gm.Field = append(gm.Field, &descriptorpb.FieldDescriptorProto{Name: proto.String("gf"), Number: proto.Int32(1), Label: descriptorpb.FieldDescriptorProto_LABEL_OPTIONAL.Enum(), Type: descriptorpb.FieldDescriptorProto_TYPE_INT32.Enum(), JsonName: proto.String("gf")})
		if r.Bool() {
			gm.Field = append(gm.Field, &descriptorpb.FieldDescriptorProto{Name: proto.String("gs"), Number: proto.Int32(2), Label: descriptorpb.FieldDescriptorProto_LABEL_REPEATED.Enum(), Type: descriptorpb.FieldDescriptorProto_TYPE_STRING.Enum(), JsonName: proto.String("gs")})
		}
		md.NestedType = append(md.NestedType, gm)
		g.msgs = append(g.msgs, &sgMsg{full: full + "." + gn, file: fi, syntax: syn})
		f.Name = proto.String(strings.ToLower(gn))
		f.Type = descriptorpb.FieldDescriptorProto_TYPE_GROUP.Enum()
		f.TypeName = proto.String("." + full + "." + gn)
		if card >= 6 && card <= 8 {
			f.Label = descriptorpb.FieldDescriptorProto_LABEL_REPEATED.Enum()
		}
		return f
	}
	repeated := card >= 6 && card <= 8
	required := card == 9 && syn == 2
	if repeated {
		f.Label = descriptorpb.FieldDescriptorProto_LABEL_REPEATED.Enum()
	}
	if required {
		f.Label = descriptorpb.FieldDescriptorProto_LABEL_REQUIRED.Enum()
	}
	implicit := false
	var fs *descriptorpb.FeatureSet
	ffeat := feat
	if syn == 3 {
		implicit = !repeated
	}
	if syn >= 2023 {
		implicit = !repeated && feat.presence == descriptorpb.FeatureSet_IMPLICIT && !inOneof
		if g.o.Features && !repeated && !inOneof && r.Chance(1, 4) {
			p := []descriptorpb.FeatureSet_FieldPresence{descriptorpb.FeatureSet_EXPLICIT, descriptorpb.FeatureSet_IMPLICIT, descriptorpb.FeatureSet_LEGACY_REQUIRED}[r.Intn(3)]
			fs = &descriptorpb.FeatureSet{FieldPresence: p.Enum()}
			implicit = p == descriptorpb.FeatureSet_IMPLICIT
			ffeat.presence = p
		}
	}
	isMsg := g.valueType(f, fi, syn, ffeat, visible, false, implicit)
	if isMsg && implicit && syn >= 2023 && fs != nil && fs.GetFieldPresence() == descriptorpb.FeatureSet_IMPLICIT {
		fs = nil // implicit presence cannot be specified on a message field
	}
	if isMsg && syn >= 2023 && feat.presence == descriptorpb.FeatureSet_IMPLICIT && fs == nil {
		// inherits IMPLICIT from the file: allowed (message fields always have presence)
	}
	t := f.GetType()
	// proto3 optional
	if syn == 3 && !repeated && !inOneof && !isMsg && r.Chance(1, 3) {
		f.Proto3Optional = proto.Bool(true)
		implicit = false
	}
	// per-field features (editions)
	if syn >= 2023 && g.o.Features {
		if repeated && t != descriptorpb.FieldDescriptorProto_TYPE_STRING && t != descriptorpb.FieldDescriptorProto_TYPE_BYTES && !isMsg && r.Chance(1, 3) {
			if fs == nil {
				fs = &descriptorpb.FeatureSet{}
			}
			fs.RepeatedFieldEncoding = []descriptorpb.FeatureSet_RepeatedFieldEncoding{descriptorpb.FeatureSet_PACKED, descriptorpb.FeatureSet_EXPANDED}[r.Intn(2)].Enum()
		}
		if t == descriptorpb.FieldDescriptorProto_TYPE_STRING && r.Chance(1, 3) {
			if fs == nil {
				fs = &descriptorpb.FeatureSet{}
			}
			fs.Utf8Validation = []descriptorpb.FeatureSet_Utf8Validation{descriptorpb.FeatureSet_VERIFY, descriptorpb.FeatureSet_NONE}[r.Intn(2)].Enum()
		}
		if isMsg && !g.o.NoGroups && r.Chance(1, 4) {
			if fs == nil {
				fs = &descriptorpb.FeatureSet{}
			}
			fs.MessageEncoding = []descriptorpb.FeatureSet_MessageEncoding{descriptorpb.FeatureSet_DELIMITED, descriptorpb.FeatureSet_LENGTH_PREFIXED}[r.Intn(2)].Enum()
		}
	}
	if fs != nil {
		f.Options = &descriptorpb.FieldOptions{Features: fs}
	}
	// packed option (proto2/proto3)
	if syn <= 3 && repeated && !isMsg && t != descriptorpb.FieldDescriptorProto_TYPE_STRING && t != descriptorpb.FieldDescriptorProto_TYPE_BYTES && r.Chance(1, 3) {
		if f.Options == nil {
			f.Options = &descriptorpb.FieldOptions{}
		}
		f.Options.Packed = proto.Bool(r.Bool())
	}
	// lazy / deprecated
	if isMsg && !repeated && r.Chance(1, 6) {
		if f.Options == nil {
			f.Options = &descriptorpb.FieldOptions{}
		}
		f.Options.Lazy = proto.Bool(true)
	}
	if r.Chance(1, 10) {
		if f.Options == nil {
			f.Options = &descriptorpb.FieldOptions{}
		}
		f.Options.Deprecated = proto.Bool(true)
	}
	// defaults: explicit-presence singular scalars/enums outside proto3
	legacyReq := fs != nil && fs.GetFieldPresence() == descriptorpb.FeatureSet_LEGACY_REQUIRED
	if syn != 3 && !repeated && !isMsg && !implicit && !legacyReq && r.Chance(1, 3) {
		if t == descriptorpb.FieldDescriptorProto_TYPE_ENUM {
			for _, e := range g.enums {
				if "."+e.full == f.GetTypeName() {
					f.DefaultValue = proto.String(e.values[r.Intn(len(e.values))])
				}
			}
		} else {
			f.DefaultValue = proto.String(sgDefault(r, t))
		}
	}
	return f
}

// valueType picks a type for f; returns whether it is a message type.
func (g *sgen) valueType(f *descriptorpb.FieldDescriptorProto, fi, syn int, feat sgFeat, visible map[int]bool, mapValue bool, implicit bool) bool {
	r := g.r
	switch d := r.Intn(10); {
	case d < 6:
		f.Type = sgScalarTypes[r.Intn(len(sgScalarTypes))].Enum()
	case d < 8:
		var cands []*sgEnum
		for _, e := range g.enums {
			if !visible[e.file] {
				continue
			}
			if syn == 3 && e.closed {
				continue
			}
			if implicit && e.closed {
				continue
			}
			if mapValue && !e.firstZero {
				continue
			}
			cands = append(cands, e)
		}
		if len(cands) == 0 {
			f.Type = descriptorpb.FieldDescriptorProto_TYPE_INT32.Enum()
			return false
		}
		e := cands[r.Intn(len(cands))]
		f.Type = descriptorpb.FieldDescriptorProto_TYPE_ENUM.Enum()
		f.TypeName = proto.String("." + e.full)
	default:
		var cands []*sgMsg
		for _, m := range g.msgs {
			if visible[m.file] && !m.mapEntry {
				cands = append(cands, m)
			}
		}
		if len(cands) == 0 {
			f.Type = descriptorpb.FieldDescriptorProto_TYPE_STRING.Enum()
			return false
		}
		m := cands[r.Intn(len(cands))]
		f.Type = descriptorpb.FieldDescriptorProto_TYPE_MESSAGE.Enum()
		f.TypeName = proto.String("." + m.full)
		return true
	}
	return false
}

func (g *sgen) extensions(scope string, fi, syn int, feat sgFeat, visible map[int]bool, n int) []*descriptorpb.FieldDescriptorProto {
	r := g.r
	var out []*descriptorpb.FieldDescriptorProto
	var cands []*sgMsg
	for _, m := range g.msgs {
		if visible[m.file] && len(m.extRange) > 0 {
			cands = append(cands, m)
		}
	}
	if g.usedExt == nil {
		g.usedExt = map[string]bool{}
	}
	used := g.usedExt
	for i := 0; i < n && len(cands) > 0; i++ {
		m := cands[r.Intn(len(cands))]
		xr := m.extRange[r.Intn(len(m.extRange))]
		num := xr[0] + int32(r.Intn(int(minI32(xr[1]-xr[0], 50))))
		key := fmt.Sprintf("%s/%d", m.full, num)
		if used[key] || (num >= 19000 && num <= 19999) {
			continue
		}
		used[key] = true
		f := &descriptorpb.FieldDescriptorProto{Name: proto.String(g.id("ext")), Number: proto.Int32(num), Label: descriptorpb.FieldDescriptorProto_LABEL_OPTIONAL.Enum(), Extendee: proto.String("." + m.full)}
		if r.Chance(1, 3) {
			f.Label = descriptorpb.FieldDescriptorProto_LABEL_REPEATED.Enum()
		}
		isMsg := g.valueType(f, fi, syn, feat, visible, false, false)
		t := f.GetType()
		if syn <= 3 && f.GetLabel() == descriptorpb.FieldDescriptorProto_LABEL_REPEATED && !isMsg && t != descriptorpb.FieldDescriptorProto_TYPE_STRING && t != descriptorpb.FieldDescriptorProto_TYPE_BYTES && r.Chance(1, 3) {
			f.Options = &descriptorpb.FieldOptions{Packed: proto.Bool(true)}
		}
		if f.GetLabel() == descriptorpb.FieldDescriptorProto_LABEL_OPTIONAL && !isMsg && t != descriptorpb.FieldDescriptorProto_TYPE_ENUM && r.Chance(1, 3) {
			f.DefaultValue = proto.String(sgDefault(r, t))
		}
		out = append(out, f)
	}
	return out
}

func minI32(a, b int32) int32 {
	if a < b {
		return a
	}
	return b
}

// Build registers the files through protodesc.NewFile into a fresh registry
// (falling back to the global registry for well-known imports).
func (s *Schema) Build() (*protoregistry.Files, []protoreflect.FileDescriptor, error) {
	reg := &protoregistry.Files{}
	var out []protoreflect.FileDescriptor
	for _, p := range s.Files {
		fd, err := protodesc.NewFile(p, reg)
		if err != nil {
			return nil, nil, fmt.Errorf("%s: %w", p.GetName(), err)
		}
		if err := reg.RegisterFile(fd); err != nil {
			return nil, nil, fmt.Errorf("%s: register: %w", p.GetName(), err)
		}
		out = append(out, fd)
	}
	return reg, out, nil
}

// GenValidSchema draws until Build succeeds (the generator aims at validity by
// construction; the few remaining conflicts - e.g. two extensions drawing the
// same number - are redrawn). It reports how many draws were rejected.
func GenValidSchema(r *core.Rand, o SchemaOpts) (*Schema, *protoregistry.Files, []protoreflect.FileDescriptor, int, error) {
	var last error
	for try := 0; try < 20; try++ {
		s := GenSchema(r.Fork(uint64(try)), o)
		reg, fds, err := s.Build()
		if err == nil {
			return s, reg, fds, try, nil
		}
		last = err
	}
	return nil, nil, nil, 20, last
}

// RandIdent draws a protobuf identifier with underscores, digits and case changes.
func RandIdent(r *core.Rand) string {
	n := 1 + r.Intn(8)
	b := make([]byte, 0, n)
	for i := 0; i < n; i++ {
		al := "abcxyzABXY__019"
		if i == 0 {
			al = "abcxyzABXY_"
		}
		b = append(b, al[r.Intn(len(al))])
	}
	return string(b)
}

// SimpleFile: a proto3 file with one message holding one int32 field.
func SimpleFile(path, pkg, msg string) *descriptorpb.FileDescriptorProto {
	return &descriptorpb.FileDescriptorProto{Name: proto.String(path), Package: proto.String(pkg), Syntax: proto.String("proto3"),
		MessageType: []*descriptorpb.DescriptorProto{{Name: proto.String(msg), Field: []*descriptorpb.FieldDescriptorProto{{Name: proto.String("x"), Number: proto.Int32(1), Label: descriptorpb.FieldDescriptorProto_LABEL_OPTIONAL.Enum(), Type: descriptorpb.FieldDescriptorProto_TYPE_INT32.Enum(), JsonName: proto.String("x")}}}}}
}

// BuildFile builds a self-contained file.
func BuildFile(p *descriptorpb.FileDescriptorProto) (protoreflect.FileDescriptor, error) {
	return protodesc.NewFile(p, nil)
}
