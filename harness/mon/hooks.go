// Package mon installs sinks on the verif-tagged hooks of /repo.
package mon

import (
	"sync/atomic"
	"unsafe"

	"google.golang.org/protobuf/internal/impl"
)

// LazyStats counts lazy-unmarshal events.
type LazyStats struct {
	Enter, Decoded, Won, Lost atomic.Int64
}

type SizeStats struct {
	Hits, Mismatch atomic.Int64
	OnMismatch     func(mi *impl.MessageInfo, cached, recomputed int)
}

var sink impl.VerifSink

func reinstall() {
	s := sink
	impl.SetVerifSink(&s)
}

// CountLazy installs a counting sink for lazy-unmarshal events.
func CountLazy() *LazyStats {
	st := &LazyStats{}
	sink.Lazy = func(stage int, mi *impl.MessageInfo, msg unsafe.Pointer, num int32, mine, current unsafe.Pointer) {
		switch stage {
		case 0:
			st.Enter.Add(1)
		case 1:
			st.Decoded.Add(1)
		case 2:
			if mine == current {
				st.Won.Add(1)
			} else {
				st.Lost.Add(1)
			}
		}
	}
	reinstall()
	return st
}

// SetLazy installs a custom lazy sink.
func SetLazy(f func(stage int, mi *impl.MessageInfo, msg unsafe.Pointer, num int32, mine, current unsafe.Pointer)) {
	sink.Lazy = f
	reinstall()
}

// WatchSizeCache installs the size-cache invariant monitor.
func WatchSizeCache(onMismatch func(mi *impl.MessageInfo, cached, recomputed int)) *SizeStats {
	st := &SizeStats{OnMismatch: onMismatch}
	sink.SizeCacheHit = func(mi *impl.MessageInfo, msg unsafe.Pointer, cached, recomputed int) {
		st.Hits.Add(1)
		if cached != recomputed {
			st.Mismatch.Add(1)
			if st.OnMismatch != nil {
				st.OnMismatch(mi, cached, recomputed)
			}
		}
	}
	reinstall()
	return st
}

// SetInit installs a MessageInfo init sink.
func SetInit(f func(stage int, mi *impl.MessageInfo)) {
	sink.Init = f
	reinstall()
}
