module google.golang.org/protobuf/verif

go 1.23

require google.golang.org/protobuf v0.0.0

replace google.golang.org/protobuf => /repo
