module google.golang.org/protobuf/verif

go 1.23

require (
	github.com/anishathalye/porcupine v1.3.0
	github.com/golang/protobuf v1.5.0
	github.com/google/go-cmp v0.7.0
	google.golang.org/protobuf v0.0.0
)

replace google.golang.org/protobuf => /repo
